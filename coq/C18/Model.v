(* C18 — exact rational model of pyqmc.pbc.pbc.enforce_pbc, the orthogonal/diagonal minimum-image
   branches of MinimalImageDistance, the 27-image search of general_dist, and the walker-set
   bookkeeping of PeriodicConfigs (make_irreducible / move / mask / split / join / resample). *)
From Coq Require Import ZArith QArith Qround List Bool.
From PyQMC Require Import base.Split.
Import ListNotations. Open Scope Q_scope.

Definition Qv := (Q * Q * Q)%type.
Definition Qm := (Qv * Qv * Qv)%type.   (* rows *)

Definition vadd (a b : Qv) : Qv := let '(x,y,z) := a in let '(u,v,w) := b in (x+u, y+v, z+w).
Definition vsub (a b : Qv) : Qv := let '(x,y,z) := a in let '(u,v,w) := b in (x-u, y-v, z-w).
Definition vmul (p : Qv) (m : Qm) : Qv :=
  let '(x,y,z) := p in let '((a,b,c),(d,e,f),(g,h,i)) := m in
  (x*a+y*d+z*g, x*b+y*e+z*h, x*c+y*f+z*i).
Definition veq (a b : Qv) : Prop := let '(x,y,z) := a in let '(u,v,w) := b in x == u /\ y == v /\ z == w.
Definition vred (a : Qv) : Qv := let '(x,y,z) := a in (Qred x, Qred y, Qred z).
Definition norm2 (a : Qv) : Q := let '(x,y,z) := a in x*x + y*y + z*z.

Definition qfloor (x : Q) : Q := inject_Z (Qfloor x).
Definition qfrac (x : Q) : Q := x - qfloor x.
Definition floorv (a : Qv) : Qv := let '(x,y,z) := a in (qfloor x, qfloor y, qfloor z).
Definition fracv (a : Qv) : Qv := let '(x,y,z) := a in (qfrac x, qfrac y, qfrac z).

(* enforce_pbc(lattvecs, epos): fractional coordinates f = epos . L^-1, divmod(f, 1), final = frac . L *)
Definition enforce (L Linv : Qm) (p : Qv) : Qv * Qv :=
  let f := vmul p Linv in (vmul (fracv f) L, floorv f).

(* ---------- minimum image ---------- *)
(* orthogonal_dist: frac = (f + 1/2) mod 1 - 1/2 componentwise *)
Definition center (x : Q) : Q := qfrac (x + (1#2)) - (1#2).
Definition centerv (a : Qv) : Qv := let '(x,y,z) := a in (center x, center y, center z).
Definition orthogonal_dist (L Linv : Qm) (d : Qv) : Qv := vmul (centerv (vmul d Linv)) L.

(* general_dist: argmin over the 27 shifts (first minimum, numpy argmin), point_list order of the code:
   meshgrid(range(3)x3) default 'xy' indexing, ravel, minus 1 *)
Definition shifts27 : list Qv :=
  flat_map (fun j => flat_map (fun i => map (fun k => (inject_Z i, inject_Z j, inject_Z k)) [-1;0;1]%Z) [-1;0;1]%Z) [-1;0;1]%Z.
Fixpoint argmin_first (best : Qv) (bn : Q) (cands : list Qv) : Qv :=
  match cands with
  | [] => best
  | c :: r => if Qlt_le_dec (norm2 c) bn then argmin_first c (norm2 c) r else argmin_first best bn r
  end.
(* np.round: round half to even *)
Definition qround (x : Q) : Q :=
  let n := Qfloor (x + (1#2)) in
  if Qeq_bool (inject_Z n) (x + (1#2)) && Z.odd n then inject_Z (n - 1) else inject_Z n.
Definition roundv (a : Qv) : Qv := let '(x,y,z) := a in (qround x, qround y, qround z).
(* the displacement reduced to the cell centred at the origin (first step of general_dist after the fix
   "minimum image in non-orthogonal cells for points more than one cell apart") *)
Definition reduced (L Linv : Qm) (d : Qv) : Qv := let f := vmul d Linv in vmul (vsub f (roundv f)) L.
Definition best27 (L : Qm) (d : Qv) : Qv :=
  match map (fun s => vadd d (vmul s L)) shifts27 with
  | [] => d
  | c :: r => argmin_first c (norm2 c) r
  end.
Definition general_dist (L Linv : Qm) (d : Qv) : Qv := best27 L (reduced L Linv d).
(* the code before that fix searched around the raw displacement *)
Definition general_dist_old (L : Qm) (d : Qv) : Qv := best27 L d.

(* ---------- walker sets ---------- *)
Record elec := mkE { pos : Qv; wr : Qv }.
Definition walker := list elec.
Definition wset := list walker.
Definition unwrapped (L : Qm) (el : elec) : Qv := vadd (pos el) (vmul (wr el) L).

(* the PeriodicConfigs constructor re-wraps whatever it is given and adds the wrap counters *)
Definition rewrap (L Linv : Qm) (el : elec) : elec :=
  let '(x, w) := enforce L Linv (pos el) in mkE x (vadd w (wr el)).

(* make_irreducible(e, vec, mask): per walker, wrap the raw vector (if masked in) and start from the wrap of electron e *)
Definition trial (L Linv : Qm) (cur : elec) (vec : Qv) (m : bool) : elec :=
  if m then let '(x, w) := enforce L Linv vec in mkE x (vadd (wr cur) w) else mkE vec (wr cur).

Fixpoint upd {A} (e : nat) (x : A) (l : list A) : list A :=
  match l, e with
  | [], _ => []
  | _ :: r, O => x :: r
  | a :: r, S e' => a :: upd e' x r
  end.

Definition dflt : elec := mkE (0,0,0) (0,0,0).

(* configs.move(e, new, accept) *)
Definition move1 (e : nat) (w : walker) (new : elec) (acc : bool) : walker := if acc then upd e new w else w.
Fixpoint zip3 {A B C D} (f : A -> B -> C -> D) (a : list A) (b : list B) (c : list C) : list D :=
  match a, b, c with
  | x :: a', y :: b', z :: c' => f x y z :: zip3 f a' b' c'
  | _, _, _ => []
  end.
Definition trials (L Linv : Qm) (e : nat) (s : wset) (vecs : list Qv) (mask : list bool) : list elec :=
  zip3 (fun w v m => trial L Linv (nth e w dflt) v m) s vecs mask.
Definition move (e : nat) (s : wset) (news : list elec) (accept : list bool) : wset :=
  zip3 (move1 e) s news accept.

Inductive op :=
| OpMove (e : nat) (vecs : list Qv) (mask accept : list bool)
| OpResample (inds : list nat)
| OpSplitJoin (k : nat)
| OpMask (m : list bool)
| OpCopy.

Fixpoint filterb {A} (m : list bool) (l : list A) : list A :=
  match m, l with
  | b :: m', x :: l' => if b then x :: filterb m' l' else filterb m' l'
  | _, _ => []
  end.

Definition step (L Linv : Qm) (s : wset) (o : op) : wset :=
  match o with
  | OpMove e vecs mask accept => move e s (trials L Linv e s vecs mask) accept
  | OpResample inds => map (fun i => nth i s []) inds
  | OpSplitJoin k => concat (map (map (map (rewrap L Linv))) (array_split k s))
  | OpMask m => map (map (rewrap L Linv)) (filterb m s)
  | OpCopy => s
  end.
(* execution keeps every rational in lowest terms (otherwise denominators grow exponentially with the number of
   operations); norm is the identity up to == (C18.Proofs.norm_veq) *)
Definition normE (el : elec) : elec := mkE (vred (pos el)) (vred (wr el)).
Definition norm (s : wset) : wset := map (map normE) s.
Definition run (L Linv : Qm) (s : wset) (ops : list op) : wset := fold_left (fun s o => norm (step L Linv s o)) ops s.

(* printing helper: canonical form *)
Definition show (s : wset) : list (list (Qv * Qv)) := map (map (fun el => (vred (pos el), vred (wr el)))) s.

(* integer-list printing (Coq prints dyadic rationals in a hexadecimal notation otherwise; nested tuples print ambiguously) *)
Definition qz (q : Q) : list Z := let r := Qred q in [Qnum r; Zpos (Qden r)].
Definition vz (v : Qv) : list (list Z) := let '(x,y,z) := v in [qz x; qz y; qz z].
Definition showz (s : wset) := map (map (fun el => [vz (pos el); vz (wr el)])) s.
