(* C18 — property theorems only. *)
From Coq Require Import ZArith QArith Qround List Bool Lia.
From PyQMC Require Import base.Split C18.Model C18.Proofs.
Import ListNotations. Open Scope Q_scope.

Definition Lex_ : Qm := ((1,1,0),(0,1,0),(0,0,2)).
Definition Lexinv_ : Qm := ((1,-1,0),(0,1,0),(0,0,1#2)).

(* wrapping: fractional coordinates in [0,1), integer counts, wrapped + counts.L = input — any non-singular lattice *)
Theorem C18_wrap_spec : forall L Linv p, is_inverse L Linv ->
  let f := vmul p Linv in
  veq (vadd (fst (enforce L Linv p)) (vmul (snd (enforce L Linv p)) L)) p
  /\ (let '(a,b,c) := fracv f in (0 <= a /\ a < 1) /\ (0 <= b /\ b < 1) /\ (0 <= c /\ c < 1))
  /\ fst (enforce L Linv p) = vmul (fracv f) L
  /\ (let '(a,b,c) := snd (enforce L Linv p) in (exists n, a = inject_Z n) /\ (exists n, b = inject_Z n) /\ (exists n, c = inject_Z n)).
Proof. exact enforce_spec. Qed.
Print Assumptions C18_wrap_spec.

(* orthogonal and diagonal cells: the returned displacement is a lattice image of the raw one and no
   longer than ANY other image (all of Z^3, displacements of any size) *)
Theorem C18_orthogonal_min_image_is_image : forall L Linv d, is_inverse L Linv ->
  exists m1 m2 m3 : Z, veq (orthogonal_dist L Linv d) (vsub d (vmul (inject_Z m1, inject_Z m2, inject_Z m3) L)).
Proof. exact orthogonal_is_image. Qed.
Print Assumptions C18_orthogonal_min_image_is_image.

Theorem C18_orthogonal_min_image_minimal : forall L Linv d (n1 n2 n3 : Z), is_inverse L Linv -> orthogonal L ->
  norm2 (orthogonal_dist L Linv d) <= norm2 (vadd d (vmul (inject_Z n1, inject_Z n2, inject_Z n3) L)).
Proof. exact orthogonal_minimal. Qed.
Print Assumptions C18_orthogonal_min_image_minimal.

(* general cells, PARTIAL: the result is raw + one of the 27 neighbouring lattice vectors and is the shortest of
   those 27.  Global minimality over Z^3 for size-reduced cells is NOT proved here; it is decided per input by the
   brute-force oracle, whose completeness is the next theorem. *)
Theorem C18_general_min_over_27_partial : forall L Linv d, is_inverse L Linv ->
  (exists s m1 m2 m3, In s shifts27 /\ general_dist L Linv d = vadd (reduced L Linv d) (vmul s L)
      /\ veq (reduced L Linv d) (vsub d (vmul (inject_Z m1, inject_Z m2, inject_Z m3) L))) /\
  forall s, In s shifts27 -> norm2 (general_dist L Linv d) <= norm2 (vadd (reduced L Linv d) (vmul s L)).
Proof. exact general_dist_spec. Qed.
Print Assumptions C18_general_min_over_27_partial.

(* the 27-image search around the RAW displacement (the code before the fix) is refuted: in the sheared cell below
   two points 3.5 cells apart get a displacement of squared length 49/4 although an image of squared length 1/4 exists *)
Theorem C18_general_raw_search_refuted :
  norm2 (general_dist_old Lex_ (7#2, 0, 0)) == 25#4 /\ norm2 (general_dist Lex_ Lexinv_ (7#2, 0, 0)) == 1#4.
Proof. split; vm_compute; reflexivity. Qed.
Print Assumptions C18_general_raw_search_refuted.

(* the oracle's finite shell is exhaustive: with |nL|^2 >= sigma2 |n|^2, no shift with sigma2 |n|^2 > 4 |d|^2
   can beat the zero shift, hence the global minimum over Z^3 lies inside the shell the oracle enumerates *)
Theorem C18_oracle_shell_complete : forall L d n sigma2, 0 < sigma2 -> sigma2 * norm2 n <= norm2 (vmul n L) ->
  4 * norm2 d < sigma2 * norm2 n -> norm2 d < norm2 (vadd d (vmul n L)).
Proof. exact shell_complete. Qed.
Print Assumptions C18_oracle_shell_complete.

(* walker bookkeeping *)
Theorem C18_trial_position_unwrapped : forall L Linv cur vec m, is_inverse L Linv ->
  veq (unwrapped L (trial L Linv cur vec m)) (vadd vec (vmul (wr cur) L)).
Proof. exact trial_unwrapped. Qed.
Print Assumptions C18_trial_position_unwrapped.

Theorem C18_rewrap_preserves_unwrapped : forall L Linv el, is_inverse L Linv ->
  veq (unwrapped L (rewrap L Linv el)) (unwrapped L el).
Proof. exact rewrap_unwrapped. Qed.
Print Assumptions C18_rewrap_preserves_unwrapped.

Theorem C18_only_accepted_walkers_change : forall e s news accept i,
  (i < length s)%nat -> length news = length s -> length accept = length s ->
  nth i (move e s news accept) [] =
    if nth i accept false then upd e (nth i news dflt) (nth i s []) else nth i s [].
Proof. exact move_spec. Qed.
Print Assumptions C18_only_accepted_walkers_change.

Theorem C18_move_touches_only_electron_e : forall (e : nat) (x : elec) (l : walker) (j : nat) d,
  j <> e -> nth j (upd e x l) d = nth j l d.
Proof. exact (@upd_nth_other elec). Qed.
Print Assumptions C18_move_touches_only_electron_e.

Theorem C18_split_then_join : forall L Linv k s, (0 < k)%nat ->
  step L Linv s (OpSplitJoin k) = map (map (rewrap L Linv)) s.
Proof. exact splitjoin_spec. Qed.
Print Assumptions C18_split_then_join.

Theorem C18_join_split_identity : forall (A : Type) (k : nat) (l : list A), (0 < k)%nat -> concat (array_split k l) = l.
Proof. exact @join_split. Qed.
Print Assumptions C18_join_split_identity.

Theorem C18_resample_gathers : forall L Linv s inds k, (k < length inds)%nat ->
  nth k (step L Linv s (OpResample inds)) [] = nth (nth k inds 0%nat) s [].
Proof. exact resample_spec. Qed.
Print Assumptions C18_resample_gathers.

Theorem C18_run_normalisation_is_identity : forall el,
  veq (pos (normE el)) (pos el) /\ veq (wr (normE el)) (wr el) /\ norm = map (map normE).
Proof. exact norm_veq. Qed.
Print Assumptions C18_run_normalisation_is_identity.

(* non-vacuity: a sheared, non-orthogonal cell with its inverse; a point far outside wraps as expected *)
Definition Lex : Qm := ((1,1,0),(0,1,0),(0,0,2)).
Definition Lexinv : Qm := ((1,-1,0),(0,1,0),(0,0,1#2)).
Example C18_hypotheses_satisfiable : is_inverse Lex Lexinv /\
  (let '(x, w) := enforce Lex Lexinv (-(7#2), 5#4, 9) in (vred x, vred w)) = ((1#2, 5#4, 1), (-4, 4, 4)).
Proof.
  split; [|vm_compute; reflexivity].
  intros [[x y] z]. cbn. repeat split; ring.
Qed.
Print Assumptions C18_hypotheses_satisfiable.
