(* C20 — the key tables extracted from the CURRENT source (gen/Keys_Gen.v) compared by computation. *)
From Coq Require Import List Bool String.
From PyQMC Require Import C20.Proofs gen.Keys_Gen.
Import ListNotations.

Definition offered := filter (fun o => negb (String.eqb (fst o) "ECPAccumulator")) all_observables.
Lemma offered_keys_agree :
  forall name adv shp ret, In (name, (adv, shp, ret)) offered ->
  (forall k, In k adv <-> In k ret) /\ (forall k, In k adv <-> In k shp).
Proof.
  assert (H : forallb (fun o => match o with (_, (adv, shp, ret)) => same_keys adv ret && same_keys adv shp end) offered = true) by (vm_compute; reflexivity).
  intros name adv shp ret Hin. rewrite forallb_forall in H. specialize (H _ Hin). cbn in H.
  apply andb_true_iff in H. destruct H as [H1 H2]. split; apply same_keys_spec; assumption.
Qed.
Lemma offered_count : List.length offered = 6%nat.
Proof. vm_compute. reflexivity. Qed.
