(* C20 — property theorems only (observables leave the walker / wave-function state as they found it; advertised keys = returned keys). *)
From Coq Require Import Arith ZArith List Bool Lia Field String.
From PyQMC Require Import C02.SM C02.Jastrow C20.Proofs gen.Keys_Gen C20.Keys.
Import ListNotations.

(* any well-bracketed sequence of "move electron e away ... move it back" (nested to any depth, any number of electrons,
   any symmetric pair function) ends in a state with the same positions, the same partial sums and the same totals *)
Theorem C20_bracketed_moves_restore_jastrow_state :
  forall (pos : Type) (b : pos -> pos -> Z), (forall x y, b x y = b y x) ->
  forall (n nup : nat) (m : meas pos) (s : state pos),
  Inv pos b n nup s -> electrons_ok pos n m ->
  Inv pos b n nup (exec pos b n nup m s) /\ same pos n (exec pos b n nup m s) s.
Proof. intros pos b Hb n nup m s. apply measurement_restores. exact Hb. Qed.
Print Assumptions C20_bracketed_moves_restore_jastrow_state.

Theorem C20_restore_is_not_vacuous :
  (Inv Z bsq 3 2 s0 /\ electrons_ok Z 3 m0) /\ view (exec Z bsq 3 2 m0 s0) = view s0 /\ view (exec_no_restore Z bsq 3 2 0 10%Z s0) <> view s0.
Proof. split; [exact concrete_premises|]. split; [exact concrete_restored|exact concrete_unrestored_differs]. Qed.
Print Assumptions C20_restore_is_not_vacuous.

(* Slater determinant: row e replaced by a trial row and then by the old row again: the stored inverse is again an inverse of the
   ORIGINAL matrix, over every field and size, whenever neither determinant ratio vanished *)
Theorem C20_slater_inverse_after_move_and_back :
  forall (F : Type) (zero one : F) (add mul sub : F -> F -> F) (opp : F -> F) (div : F -> F -> F) (inv : F -> F),
  field_theory zero one add mul sub opp div inv (@eq F) ->
  forall (n e : nat) A B v, (e < n)%nat -> right_inv F zero one add mul n A B -> tmpv F zero add mul n v B e <> zero ->
  tmpv F zero add mul n (A e) (sm_row F zero add mul sub div n e B v) e <> zero ->
  right_inv F zero one add mul n A (sm_row F zero add mul sub div n e (sm_row F zero add mul sub div n e B v) (A e)).
Proof. intros F zero one add mul sub opp div inv Fth n e A B v He HAB Hr Hr2. exact (slater_move_and_back F zero one add mul sub opp div inv Fth n e A B v He HAB Hr Hr2). Qed.
Print Assumptions C20_slater_inverse_after_move_and_back.

(* the key tables extracted from the CURRENT source (gen/Keys_Gen.v): for every built-in observable class that is offered to the
   drivers, the literal keys of keys(), of shapes() and of the dictionary returned by __call__ are the same set
   (jax_ecp.ECPAccumulator, an internal helper of EnergyAccumulator that returns a bare array, is excluded here and reported by the harness) *)
Theorem C20_advertised_keys_are_returned_keys :
  forall name adv shp ret, In (name, (adv, shp, ret)) offered ->
  (forall k, In k adv <-> In k ret) /\ (forall k, In k adv <-> In k shp).
Proof. exact offered_keys_agree. Qed.
Print Assumptions C20_advertised_keys_are_returned_keys.
Theorem C20_key_table_covers_the_observables : List.length offered = 6%nat.
Proof. exact offered_count. Qed.
Print Assumptions C20_key_table_covers_the_observables.
