(* C20 — an observable that moves electrons inside the wave-function object and moves them back leaves the
   object's observable state exactly where it was (TBDMAccumulator: move ea, query, move ea back; S2Accumulator: nested
   moves unwound in reverse order).  The wave-function state and its update are those of C02 (two-body Jastrow partial
   sums; Slater inverse over a field) — the same definitions the C02 correspondence runs against the code. *)
From Coq Require Import Arith ZArith List Bool Lia Field String.
From PyQMC Require Import C02.SM C02.Jastrow.
Import ListNotations.

Section Restore.
Variable pos : Type.
Variable b : pos -> pos -> Z.
Hypothesis b_sym : forall x y, b x y = b y x.
Variables (n nup : nat).
Notation state := (state pos).
Notation Inv := (Inv pos b n nup).
Notation update := (update pos b n nup).

(* a measurement: queries (which do not touch the state, C03) are omitted; what is left is a well-bracketed sequence of
   moves:  Node e x inner next  =  move electron e to x ; inner ; move e back to where it was ; next *)
Inductive meas := Done | Node (e : nat) (x : pos) (inner next : meas).
Fixpoint exec (m : meas) (s : state) : state :=
  match m with
  | Done => s
  | Node e x inner next => exec next (update (exec inner (update s e x)) e (rr pos s e))
  end.
Fixpoint electrons_ok (m : meas) : Prop :=
  match m with Done => True | Node e _ inner next => (e < n)%nat /\ electrons_ok inner /\ electrons_ok next end.

(* what a later caller can see of the state *)
Definition same (s1 s2 : state) : Prop :=
  (forall k, rr pos s1 k = rr pos s2 k) /\ (forall i t, (i < n)%nat -> bpart pos s1 i t = bpart pos s2 i t) /\ (forall c, bval pos s1 c = bval pos s2 c).

Lemma part_of_ext r1 r2 i t : (forall k, r1 k = r2 k) -> part_of pos b n nup r1 i t = part_of pos b n nup r2 i t.
Proof. intros H. unfold part_of. apply sumn_ext. intros k _. rewrite !H. reflexivity. Qed.
Lemma total_of_ext r1 r2 c : (forall k, r1 k = r2 k) -> total_of pos b n nup r1 c = total_of pos b n nup r2 c.
Proof. intros H. unfold total_of. apply sumn_ext. intros k _. apply sumn_ext. intros j _. rewrite !H. reflexivity. Qed.

Lemma inv_same s1 s2 : Inv s1 -> Inv s2 -> (forall k, rr pos s1 k = rr pos s2 k) -> same s1 s2.
Proof.
  intros [P1 V1] [P2 V2] H. split; [exact H|]. split.
  - intros i t Hi. rewrite P1, P2 by assumption. apply part_of_ext. exact H.
  - intros c. rewrite V1, V2. apply total_of_ext. exact H.
Qed.
Lemma same_trans s1 s2 s3 : same s1 s2 -> same s2 s3 -> same s1 s3.
Proof.
  intros [A1 [B1 C1]] [A2 [B2 C2]]. split; [|split]; intros.
  - rewrite A1. apply A2. - rewrite B1 by assumption. apply B2. assumption. - rewrite C1. apply C2.
Qed.

Theorem measurement_restores m : forall s, Inv s -> electrons_ok m -> Inv (exec m s) /\ same (exec m s) s.
Proof.
  induction m as [|e x inner IHi next IHn]; intros s HI Hok.
  - split; [exact HI|]. split; [|split]; reflexivity.
  - destruct Hok as [He [Hoi Hon]]. cbn [exec].
    assert (H1 : Inv (update s e x)) by (apply update_inv; assumption).
    destruct (IHi _ H1 Hoi) as [H2 [R2 _]].
    set (s2 := exec inner (update s e x)) in *.
    assert (H3 : Inv (update s2 e (rr pos s e))) by (apply update_inv; assumption).
    assert (R3 : forall k, rr pos (update s2 e (rr pos s e)) k = rr pos s k).
    { intros k. cbn [Jastrow.update rr]. unfold upd_pos. destruct (Nat.eqb_spec k e) as [->|Hne]; [reflexivity|].
      rewrite R2. cbn [Jastrow.update rr]. unfold upd_pos. destruct (Nat.eqb_spec k e); [contradiction|reflexivity]. }
    destruct (IHn _ H3 Hon) as [H4 S4]. split; [exact H4|].
    eapply same_trans; [exact S4|]. apply inv_same; assumption.
Qed.

(* what goes wrong when the electron is NOT moved back (or moved back to the wrong place): positions differ *)
Definition exec_no_restore (e : nat) (x : pos) (s : state) : state := update s e x.
End Restore.

(* a concrete run: 3 electrons on a line, b = squared distance; nested measurement; and the unrestored variant differs *)
Definition bsq (x y : Z) : Z := ((x - y) * (x - y))%Z.
Definition s0 := recompute Z bsq 3 2 (fun k => Z.of_nat k).
Definition m0 := Node Z 0 10%Z (Node Z 2 (-4)%Z (Done Z) (Done Z)) (Node Z 1 7%Z (Done Z) (Done Z)).
Definition view (s : state Z) := (map (rr Z s) [0;1;2]%nat, map (fun i => (bpart Z s i false, bpart Z s i true)) [0;1;2]%nat, map (bval Z s) [0;1;2]%nat).
Lemma concrete_restored : view (exec Z bsq 3 2 m0 s0) = view s0.
Proof. vm_compute. reflexivity. Qed.
Lemma concrete_unrestored_differs : view (exec_no_restore Z bsq 3 2 0 10%Z s0) <> view s0.
Proof. vm_compute. congruence. Qed.
Lemma concrete_premises : Inv Z bsq 3 2 s0 /\ electrons_ok Z 3 m0.
Proof. split; [apply recompute_inv|]. cbn. lia. Qed.

(* ---- Slater inverse: replace row e by v, then put the old row back: the result is again a right inverse of A ---- *)
Section SlaterRestore.
Variables (F : Type) (zero one : F) (add mul sub : F -> F -> F) (opp : F -> F) (div : F -> F -> F) (inv : F -> F).
Hypothesis Fth : field_theory zero one add mul sub opp div inv (@eq F).
Notation right_inv := (right_inv F zero one add mul).
Notation sm_row := (sm_row F zero add mul sub div).
Notation tmpv := (tmpv F zero add mul).
Notation setrow := (setrow F).

Lemma right_inv_ext n A A' B : (forall i k, A i k = A' i k) -> right_inv n A B -> right_inv n A' B.
Proof.
  intros H HR i j Hi Hj. rewrite <- (HR i j Hi Hj). unfold mm. apply sum_ext. intros k _. rewrite H. reflexivity.
Qed.
Theorem slater_move_and_back n e A B v :
  (e < n)%nat -> right_inv n A B -> tmpv n v B e <> zero ->
  let B1 := sm_row n e B v in tmpv n (A e) B1 e <> zero ->
  right_inv n A (sm_row n e B1 (A e)).
Proof.
  intros He HAB Hr B1 Hr2.
  apply (right_inv_ext n (setrow (setrow A e v) e (A e))).
  - intros i k. unfold SM.setrow. destruct (Nat.eqb_spec i e) as [->|]; reflexivity.
  - apply (sm_inverse F zero one add mul sub opp div inv Fth); [assumption| |assumption].
    apply (sm_inverse F zero one add mul sub opp div inv Fth); assumption.
Qed.
End SlaterRestore.

(* ---- key tables: "returns exactly the keys it advertises" as a decidable comparison of two literal key lists ---- *)
Definition subset (a c : list string) : bool := forallb (fun x => existsb (String.eqb x) c) a.
Definition same_keys (a c : list string) : bool := subset a c && subset c a.
Lemma same_keys_spec a c : same_keys a c = true <-> (forall k, In k a <-> In k c).
Proof.
  unfold same_keys, subset. rewrite andb_true_iff, !forallb_forall. split.
  - intros [H1 H2] k. split; intros Hk; [apply H1 in Hk|apply H2 in Hk]; apply existsb_exists in Hk; destruct Hk as [y [Hy E]]; apply String.eqb_eq in E; subst; assumption.
  - intros H. split; intros x Hx; apply existsb_exists; exists x; (split; [apply H; assumption|apply String.eqb_refl]).
Qed.
