(* C12 — property theorems only. *)
From Coq Require Import QArith Qreals Reals List Bool Arith.
From PyQMC Require Import base.ExactRing C12.Model C12.Interp C12.ExactO C12.ExactO50 C12.ExactO50s C12.ExactI C12.ExactI32 C12.ExactI32s C12.Proofs.
Import ListNotations.

(* each rule integrates every monomial x^a y^b z^c of total degree <= its design degree exactly — an identity between
   REAL numbers: the points are the real numbers denoted by the exact ring elements, the right-hand side is the exact
   moment (a-1)!!(b-1)!!(c-1)!!/(a+b+c+1)!! of the uniform measure on the sphere.  (Polynomials of degree <= d are
   linear combinations of these monomials.) *)
Theorem C12_rule6_exact_to_degree_3 : forall a b c, (a + b + c <= 3)%nat -> rquadsum KO IO rule6 a b c = Q2R (moment a b c).
Proof. exact (octa_exact_R rule6 3 rule6_exact). Qed.
Print Assumptions C12_rule6_exact_to_degree_3.
Theorem C12_rule12_exact_to_degree_5 : forall a b c, (a + b + c <= 5)%nat -> rquadsum KI II rule12 a b c = Q2R (moment a b c).
Proof. exact (icosa_exact_R rule12 5 rule12_exact). Qed.
Print Assumptions C12_rule12_exact_to_degree_5.
Theorem C12_rule18_exact_to_degree_5 : forall a b c, (a + b + c <= 5)%nat -> rquadsum KO IO rule18 a b c = Q2R (moment a b c).
Proof. exact (octa_exact_R rule18 5 rule18_exact). Qed.
Print Assumptions C12_rule18_exact_to_degree_5.
Theorem C12_rule26_exact_to_degree_7 : forall a b c, (a + b + c <= 7)%nat -> rquadsum KO IO rule26 a b c = Q2R (moment a b c).
Proof. exact (octa_exact_R rule26 7 rule26_exact). Qed.
Print Assumptions C12_rule26_exact_to_degree_7.
Theorem C12_rule32_exact_to_degree_9 : forall a b c, (a + b + c <= 9)%nat -> rquadsum KI II rule32 a b c = Q2R (moment a b c).
Proof. exact (icosa_exact_R rule32 9 rule32_exact). Qed.
Print Assumptions C12_rule32_exact_to_degree_9.
Theorem C12_rule50_exact_to_degree_11 : forall a b c, (a + b + c <= 11)%nat -> rquadsum KO IO rule50 a b c = Q2R (moment a b c).
Proof. exact (octa_exact_R rule50 11 rule50_exact). Qed.
Print Assumptions C12_rule50_exact_to_degree_11.

(* the published degrees are sharp: one degree higher some monomial is integrated wrongly *)
Theorem C12_degrees_are_sharp :
  exact_to KO oQ rule6 4 = false /\ exact_to KI iQ rule12 6 = false /\ exact_to KO oQ rule18 6 = false /\
  exact_to KO oQ rule26 8 = false /\ exact_to KI iQ rule32 10 = false /\ exact_to KO oQ rule50 12 = false.
Proof. exact (conj rule6_sharp (conj rule12_sharp (conj rule18_sharp (conj rule26_sharp (conj rule32_sharp rule50_sharp))))). Qed.
Print Assumptions C12_degrees_are_sharp.

(* unit total weight, points on the unit sphere, number of points *)
Theorem C12_unit_weight_unit_norm :
  (reqb KO (weight_sum KO rule6) (oQ 1) && reqb KO (weight_sum KO rule18) (oQ 1) && reqb KO (weight_sum KO rule26) (oQ 1) && reqb KO (weight_sum KO rule50) (oQ 1)
   && on_sphere KO rule6 && on_sphere KO rule18 && on_sphere KO rule26 && on_sphere KO rule50
   && (length rule6 =? 6)%nat && (length rule18 =? 18)%nat && (length rule26 =? 26)%nat && (length rule50 =? 50)%nat) = true /\
  (reqb KI (weight_sum KI rule12) (iQ 1) && reqb KI (weight_sum KI rule32) (iQ 1) && on_sphere KI rule12 && on_sphere KI rule32
   && (length rule12 =? 12)%nat && (length rule32 =? 32)%nat) = true /\ constants_ok = true.
Proof. exact (conj octa_weights_and_norms (conj icosa_weights_and_norms icosa_constants)). Qed.
Print Assumptions C12_unit_weight_unit_norm.

Theorem C12_points_on_unit_sphere_R : forall K (I : interp K) r, on_sphere K r = true ->
  forall w x y z, In (w, (x, y, z)) r -> (phi I x * phi I x + (phi I y * phi I y + phi I z * phi I z) = 1)%R.
Proof. exact on_sphere_R. Qed.
Print Assumptions C12_points_on_unit_sphere_R.

(* the Legendre table of eval_ecp.P_l is the Legendre recurrence for l <= 4 *)
Theorem C12_legendre_table : forall x, (P_table 0 x == legendre 0 x /\ P_table 1 x == legendre 1 x /\ P_table 2 x == legendre 2 x
  /\ P_table 3 x == legendre 3 x /\ P_table 4 x == legendre 4 x)%Q.
Proof. exact legendre_table. Qed.
Print Assumptions C12_legendre_table.
