From Coq Require Import QArith List Bool.
From PyQMC Require Import base.ExactRing C12.Model.
Lemma rule32_sharp : exact_to KI iQ rule32 10 = false. Proof. vm_cast_no_check (eq_refl false). Qed.
