From Coq Require Import QArith List Bool.
From PyQMC Require Import base.ExactRing C12.Model.
Lemma rule50_exact : exact_to KO oQ rule50 11 = true. Proof. vm_cast_no_check (eq_refl true). Qed.
