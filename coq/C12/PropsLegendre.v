(* C12 — property theorems about the Legendre functions as they are written in the current source (gen/Legendre_Gen.v is regenerated
   from every copy of P_l in /repo by translator/gen_legendre.py on every run). *)
From Coq Require Import QArith Field.
From PyQMC Require Import C12.Model gen.Legendre_Gen.
Open Scope Q_scope.

(* the expressions returned by eval_ecp.P_l for l = 0..4 are the Legendre polynomials of the Bonnet recurrence, for every argument;
   the l = -1 (local channel) branch is 0 *)
Theorem C12_legendre_source_eval_ecp : forall x,
  P_src_eval_ecp 0 x == legendre 0 x /\ P_src_eval_ecp 1 x == legendre 1 x /\ P_src_eval_ecp 2 x == legendre 2 x /\
  P_src_eval_ecp 3 x == legendre 3 x /\ P_src_eval_ecp 4 x == legendre 4 x /\ P_src_eval_ecp_m1 x == 0.
Proof.
  intros x. unfold P_src_eval_ecp, P_src_eval_ecp_0, P_src_eval_ecp_1, P_src_eval_ecp_2, P_src_eval_ecp_3, P_src_eval_ecp_4, P_src_eval_ecp_m1, legendre.
  cbn [legendre2 fst Z.of_nat Pos.of_succ_nat Pos.succ Z.mul Z.add Pos.mul Pos.add]. repeat split; field.
Qed.
Print Assumptions C12_legendre_source_eval_ecp.

(* the copy in ecp_accumulator.py *)
Theorem C12_legendre_source_ecp_accumulator : forall x,
  P_src_ecp_accumulator 0 x == legendre 0 x /\ P_src_ecp_accumulator 1 x == legendre 1 x /\ P_src_ecp_accumulator 2 x == legendre 2 x /\
  P_src_ecp_accumulator 3 x == legendre 3 x /\ P_src_ecp_accumulator 4 x == legendre 4 x /\ P_src_ecp_accumulator_m1 x == 0.
Proof.
  intros x. unfold P_src_ecp_accumulator, P_src_ecp_accumulator_0, P_src_ecp_accumulator_1, P_src_ecp_accumulator_2, P_src_ecp_accumulator_3, P_src_ecp_accumulator_4, P_src_ecp_accumulator_m1, legendre.
  cbn [legendre2 fst Z.of_nat Pos.of_succ_nat Pos.succ Z.mul Z.add Pos.mul Pos.add]. repeat split; field.
Qed.
Print Assumptions C12_legendre_source_ecp_accumulator.

(* and they coincide with the hand-written table the correspondence check evaluates *)
Theorem C12_legendre_source_is_the_model_table : forall x l, (l <= 4)%nat -> P_src_eval_ecp l x == P_table l x /\ P_src_ecp_accumulator l x == P_table l x.
Proof.
  intros x l Hl. do 5 (destruct l as [|l]; [cbv [P_src_eval_ecp P_src_ecp_accumulator P_src_eval_ecp_0 P_src_eval_ecp_1 P_src_eval_ecp_2 P_src_eval_ecp_3 P_src_eval_ecp_4
    P_src_ecp_accumulator_0 P_src_ecp_accumulator_1 P_src_ecp_accumulator_2 P_src_ecp_accumulator_3 P_src_ecp_accumulator_4 P_table]; split; field|]).
  exfalso. repeat apply le_S_n in Hl. inversion Hl.
Qed.
Print Assumptions C12_legendre_source_is_the_model_table.
