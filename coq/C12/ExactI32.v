From Coq Require Import QArith List Bool.
From PyQMC Require Import base.ExactRing C12.Model.
Lemma rule32_exact : exact_to KI iQ rule32 9 = true. Proof. vm_cast_no_check (eq_refl true). Qed.
