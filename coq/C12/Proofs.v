From Coq Require Import QArith Qreals Reals Lra Lia List Bool Arith.
From PyQMC Require Import base.ExactRing C12.Model C12.Interp C12.ExactO C12.ExactO50 C12.ExactO50s C12.ExactI C12.ExactI32 C12.ExactI32s.
Import ListNotations.

Lemma In_monos d a b c : (a + b + c <= d)%nat -> In (a, b, c) (monos d).
Proof.
  intros H. unfold monos. apply in_flat_map. exists a. split; [apply in_seq; lia|].
  apply in_flat_map. exists b. split; [apply in_seq; lia|]. apply in_map_iff. exists c. split; [reflexivity|apply in_seq; lia].
Qed.

Lemma exact_lift K ofQ r d : exact_to K ofQ r d = true ->
  forall a b c, (a + b + c <= d)%nat -> reqb K (quadsum K r a b c) (ofQ (moment a b c)) = true.
Proof.
  intros H a b c Hd. unfold exact_to in H. rewrite forallb_forall in H. exact (H (a, b, c) (In_monos d a b c Hd)).
Qed.

(* ---------------- interpretation of the two fields ---------------- *)
Open Scope R_scope.
Lemma Q2R_pos_lit (n : positive) : 0 <= Q2R (Zpos n # 1).
Proof. unfold Q2R; cbn. rewrite Rinv_1, Rmult_1_r. apply IZR_le. lia. Qed.

Definition IO1 : interp KO1 := quad_interp Qring Qinterp (2#1) (Q2R_pos_lit 2).
Lemma IO2_pos : 0 <= phi IO1 (inj Qring (2#1) (3#1)).
Proof. cbn. pose proof (Q2R_pos_lit 3). unfold Q2R in *; cbn in *. lra. Qed.
Definition IO2 : interp KO2 := quad_interp KO1 IO1 _ IO2_pos.
Lemma IO_pos : 0 <= phi IO2 (inj KO1 _ (inj Qring (2#1) (11#1))).
Proof. cbn. unfold Q2R; cbn. lra. Qed.
Definition IO : interp KO := quad_interp KO2 IO2 _ IO_pos.

Definition II1 : interp KI1 := quad_interp Qring Qinterp (5#1) (Q2R_pos_lit 5).
Lemma sqrt5_lt_5 : sqrt 5 < 5.
Proof. rewrite <- (sqrt_square 5) at 2 by lra. apply sqrt_lt_1_alt. lra. Qed.
Lemma II2_pos : 0 <= phi II1 s_sq.
Proof.
  unfold s_sq. rewrite (phi_mul II1), (phi_add II1), (phi_opp II1). cbn. unfold Q2R; cbn.
  replace (5 * / 1) with 5 by lra. pose proof sqrt5_lt_5. pose proof (sqrt_pos 5). nra.
Qed.
Definition II2 : interp KI2 := quad_interp KI1 II1 _ II2_pos.
Lemma II_pos : 0 <= phi II2 (inj KI1 _ (k1Q (3#1))).
Proof. cbn. unfold Q2R; cbn. lra. Qed.
Definition II : interp KI := quad_interp KI2 II2 _ II_pos.

Lemma phi_oQ q : phi IO (oQ q) = Q2R q.
Proof. cbn. unfold Q2R at 2 4 6 8 10 12; cbn. lra. Qed.
Lemma phi_iQ q : phi II (iQ q) = Q2R q.
Proof. cbn. unfold Q2R at 2 4 6 8 10 12; cbn. lra. Qed.

(* real value of a quadrature sum *)
Definition rquadsum (K : ring) (I : interp K) (r : rule K) (a b c : nat) : R :=
  fold_left (fun acc wp => let '(w, (x, y, z)) := wp in acc + phi I w * (phi I x ^ a * (phi I y ^ b * phi I z ^ c))) r 0.

Lemma phi_quadsum K (I : interp K) r a b c : phi I (quadsum K r a b c) = rquadsum K I r a b c.
Proof.
  unfold quadsum, rquadsum. rewrite <- (phi_0 I). generalize (r0 K) as acc.
  induction r as [|[w [[x y] z]] r IH]; intros acc; cbn [fold_left]; [reflexivity|].
  rewrite IH. f_equal. rewrite (phi_add I), !(phi_mul I), !phi_pow. reflexivity.
Qed.

(* the quadrature identity as an identity between real numbers *)
Theorem octa_exact_R (r : rule KO) d : exact_to KO oQ r d = true ->
  forall a b c, (a + b + c <= d)%nat -> rquadsum KO IO r a b c = Q2R (moment a b c).
Proof.
  intros H a b c Hd. rewrite <- phi_quadsum, <- phi_oQ. apply (phi_eqb IO). apply (exact_lift KO oQ r d H); assumption.
Qed.
Theorem icosa_exact_R (r : rule KI) d : exact_to KI iQ r d = true ->
  forall a b c, (a + b + c <= d)%nat -> rquadsum KI II r a b c = Q2R (moment a b c).
Proof.
  intros H a b c Hd. rewrite <- phi_quadsum, <- phi_iQ. apply (phi_eqb II). apply (exact_lift KI iQ r d H); assumption.
Qed.

(* every point of a rule lies on the unit sphere (real statement) *)
Lemma on_sphere_R K (I : interp K) r : on_sphere K r = true ->
  forall w x y z, In (w, (x, y, z)) r -> phi I x * phi I x + (phi I y * phi I y + phi I z * phi I z) = 1.
Proof.
  intros H w x y z Hin. unfold on_sphere in H. rewrite forallb_forall in H. specialize (H _ Hin). cbn in H.
  apply (phi_eqb I) in H. rewrite (phi_add I), (phi_add I), !(phi_mul I), (phi_1 I) in H. exact H.
Qed.

(* ---------------- Legendre table = Bonnet recurrence ---------------- *)
Close Scope R_scope. Open Scope Q_scope.
Lemma legendre_table x : P_table 0 x == legendre 0 x /\ P_table 1 x == legendre 1 x /\ P_table 2 x == legendre 2 x
  /\ P_table 3 x == legendre 3 x /\ P_table 4 x == legendre 4 x.
Proof. unfold legendre; cbn. repeat split; field. Qed.
