(* C12 — the six spherical quadrature rules of eval_ecp.generate_quadrature_grids, built structurally in exact
   computable rings: octahedral rules in Q(sqrt2)(sqrt3)(sqrt11), icosahedral rules in Q(sqrt5)(s)(sqrt3) with
   s = sin(pi/5), s^2 = (5 - sqrt5)/8; the exact moments of the uniform measure on the sphere; the Legendre table. *)
From Coq Require Import QArith ZArith List Bool Arith.
From PyQMC Require Import base.ExactRing.
Import ListNotations.

Definition pt (K : ring) := (T K * T K * T K)%type.
Definition rule (K : ring) := list (T K * pt K).     (* (weight, point) *)

Definition quadsum (K : ring) (r : rule K) (a b c : nat) : T K :=
  fold_left (fun acc wp => let '(w, (x, y, z)) := wp in
     radd K acc (rmul K w (rmul K (rpow K x a) (rmul K (rpow K y b) (rpow K z c))))) r (r0 K).
Definition weight_sum (K : ring) (r : rule K) : T K := fold_left (fun acc wp => radd K acc (fst wp)) r (r0 K).
Definition on_sphere (K : ring) (r : rule K) : bool :=
  forallb (fun wp => let '(_, (x, y, z)) := wp in reqb K (radd K (rmul K x x) (radd K (rmul K y y) (rmul K z z))) (r1 K)) r.

(* (1/4pi) int x^a y^b z^c dOmega = (a-1)!!(b-1)!!(c-1)!!/(a+b+c+1)!! for even a,b,c, else 0 *)
Fixpoint dfact (n fuel : nat) : Z :=
  match fuel with O => 1%Z | S f => match n with O => 1%Z | S O => 1%Z | S (S m) => (Z.of_nat n * dfact m f)%Z end end.
Definition df (n : nat) := dfact n (S n).
Definition moment (a b c : nat) : Q :=
  if Nat.even a && Nat.even b && Nat.even c then
    Qred (inject_Z (df (a-1) * df (b-1) * df (c-1)) / inject_Z (df (a+b+c+1)))
  else 0.
Definition monos (d : nat) : list (nat * nat * nat) :=
  flat_map (fun a => flat_map (fun b => map (fun c => (a,b,c)) (seq 0 (d+1-a-b))) (seq 0 (d+1-a))) (seq 0 (d+1)).
Definition exact_to (K : ring) (ofQ : Q -> T K) (r : rule K) (d : nat) : bool :=
  forallb (fun m => let '(a,b,c) := m in reqb K (quadsum K r a b c) (ofQ (moment a b c))) (monos d).

(* ---------------- octahedral field and orbits ---------------- *)
Definition KO1 := quad Qring (2#1).
Definition KO2 := quad KO1 (inj Qring (2#1) (3#1)).
Definition KO := quad KO2 (inj KO1 _ (inj Qring (2#1) (11#1))).
Definition oQ (q : Q) : T KO := inj KO2 _ (inj KO1 _ (inj Qring (2#1) q)).
Definition o_s2 : T KO := inj KO2 _ (inj KO1 _ (gen Qring (2#1))).
Definition o_s3 : T KO := inj KO2 _ (gen KO1 _).
Definition o_s11 : T KO := gen KO2 _.
Definition omul := rmul KO.
Definition osc (z : Z) (x : T KO) : T KO := omul (oQ (inject_Z z)) x.
Definition signs := [1%Z; (-1)%Z].
Definition i2 := omul (oQ (1#2)) o_s2.       (* 1/sqrt2 *)
Definition i3 := omul (oQ (1#3)) o_s3.       (* 1/sqrt3 *)
Definition i11 := omul (oQ (1#11)) o_s11.    (* 1/sqrt11 *)
Definition o0 := r0 KO. Definition o1 := r1 KO.
(* points with one / two / three non-zero coordinates of {-1,0,1}^3, normalised *)
Definition OA : list (pt KO) := flat_map (fun s => [(osc s o1, o0, o0); (o0, osc s o1, o0); (o0, o0, osc s o1)]) signs.
Definition OB : list (pt KO) := flat_map (fun s => flat_map (fun t => [(osc s i2, osc t i2, o0); (osc s i2, o0, osc t i2); (o0, osc s i2, osc t i2)]) signs) signs.
Definition OC : list (pt KO) := flat_map (fun s => flat_map (fun t => map (fun u => (osc s i3, osc t i3, osc u i3)) signs) signs) signs.
(* OC * sqrt(3/11) with the z component tripled, and its cyclic shifts *)
Definition OD : list (pt KO) := flat_map (fun s => flat_map (fun t => flat_map (fun u =>
   [(osc s i11, osc t i11, osc (3*u) i11); (osc (3*u) i11, osc s i11, osc t i11); (osc t i11, osc (3*u) i11, osc s i11)]) signs) signs) signs.
Definition withw (w : Q) (l : list (pt KO)) : rule KO := map (fun p => (oQ w, p)) l.
Definition rule6 : rule KO := withw (1#6) OA.
Definition rule18 : rule KO := withw (1#30) OA ++ withw (1#15) OB.
Definition rule26 : rule KO := withw (1#21) OA ++ withw (4#105) OB ++ withw (27#840) OC.
Definition rule50 : rule KO := withw (4#315) OA ++ withw (64#2835) OB ++ withw (27#1280) OC ++ withw (14641#725760) OD.

(* ---------------- icosahedral field ---------------- *)
Definition KI1 := quad Qring (5#1).                                   (* Q(sqrt5) *)
Definition k1Q (q : Q) : T KI1 := inj Qring (5#1) q.
Definition k1s5 : T KI1 := gen Qring (5#1).
Definition s_sq : T KI1 := rmul KI1 (k1Q (1#8)) (radd KI1 (k1Q (5#1)) (ropp KI1 k1s5)).   (* (5 - sqrt5)/8 *)
Definition KI2 := quad KI1 s_sq.                                      (* (s), s = sin(pi/5) *)
Definition KI := quad KI2 (inj KI1 _ (k1Q (3#1))).                    (* (sqrt3) *)
Definition iQ (q : Q) : T KI := inj KI2 _ (inj KI1 _ (k1Q q)).
Definition i_s5 : T KI := inj KI2 _ (inj KI1 _ k1s5).
Definition i_s : T KI := inj KI2 _ (gen KI1 _).
Definition i_s3 : T KI := gen KI2 _.
Definition imul := rmul KI. Definition iadd := radd KI. Definition iopp := ropp KI.
Definition ic : T KI := imul (iQ (1#4)) (iadd (iQ 1) i_s5).           (* cos(pi/5) = (1+sqrt5)/4 *)
Definition inv_s5 : T KI := imul (iQ (1#5)) i_s5.                     (* 1/sqrt5 *)
Definition inv_s3 : T KI := imul (iQ (1#3)) i_s3.                     (* 1/sqrt3 *)
Definition c25 : T KI := imul (iQ (1#4)) (iadd i_s5 (iQ (-1))).       (* cos(2pi/5) = (sqrt5-1)/4 *)
Definition inv_2sc : T KI := imul (iQ (4#5)) (imul i_s5 i_s).         (* 1/sin(2pi/5) = 4 sqrt5 s / 5 *)
Definition cot25 : T KI := imul c25 inv_2sc.
(* angles of the rings: b_1 = arctan 2; c_1, c_2 with cos^2 = (5 +- 2 sqrt5)/15 *)
Definition cosB := inv_s5. Definition sinB := imul (iQ 2) inv_s5.
Definition cosC1 := imul (imul (iadd (iQ 2) i_s5) inv_s3) cot25.
Definition sinC1 := imul (imul (iQ 4) i_s) (imul inv_s3 inv_s5).
Definition cosC2 := imul inv_s3 cot25.
Definition sinC2 := imul (imul (iQ 8) (imul i_s ic)) (imul inv_s3 inv_s5).
(* (cos(k pi/5), sin(k pi/5)) by repeated rotation *)
Fixpoint cis (k : nat) : T KI * T KI :=
  match k with O => (r1 KI, r0 KI) | S j => let '(cj, sj) := cis j in (iadd (imul cj ic) (iopp (imul sj i_s)), iadd (imul sj ic) (imul cj i_s)) end.
Definition sph (ct st : T KI) (k : nat) : pt KI := let '(cp, sp) := cis k in (imul st cp, imul st sp, ct).
Definition IA : list (pt KI) := [(r0 KI, r0 KI, r1 KI); (r0 KI, r0 KI, iopp (r1 KI))].
(* theta = b_1 for even k, pi - b_1 for odd k *)
Definition IB : list (pt KI) := map (fun k => sph (if Nat.even k then cosB else iopp cosB) sinB k) (seq 0 10).
(* theta = pi - c_1 (even k), c_1 (odd k); then pi - c_2 (even k), c_2 (odd k) *)
Definition ICl : list (pt KI) :=
  map (fun k => sph (if Nat.even k then iopp cosC1 else cosC1) sinC1 k) (seq 0 10) ++
  map (fun k => sph (if Nat.even k then iopp cosC2 else cosC2) sinC2 k) (seq 0 10).
Definition withwI (w : Q) (l : list (pt KI)) : rule KI := map (fun p => (iQ w, p)) l.
Definition rule12 : rule KI := withwI (1#12) IA ++ withwI (1#12) IB.
Definition rule32 : rule KI := withwI (5#168) IA ++ withwI (5#168) IB ++ withwI (27#840) ICl.

(* the defining relations of the hand-supplied constants, checked by computation in Proofs *)
Definition constants_ok : bool :=
  reqb KI (imul i_s5 i_s5) (iQ 5) && reqb KI (imul i_s3 i_s3) (iQ 3) &&
  reqb KI (iadd (imul i_s i_s) (imul ic ic)) (iQ 1) &&                      (* s^2 + c^2 = 1 *)
  reqb KI (imul (imul (iQ 2) (imul i_s ic)) inv_2sc) (iQ 1) &&              (* inv_2sc = 1/sin(2pi/5) *)
  reqb KI (imul (iQ 15) (imul cosC1 cosC1)) (iadd (iQ 5) (imul (iQ 2) i_s5)) &&   (* cos^2 c_1 = (5+2 sqrt5)/15 *)
  reqb KI (imul (iQ 15) (imul cosC2 cosC2)) (iadd (iQ 5) (imul (iQ (-2)) i_s5)) &&
  reqb KI (iadd (imul cosC1 cosC1) (imul sinC1 sinC1)) (iQ 1) && reqb KI (iadd (imul cosC2 cosC2) (imul sinC2 sinC2)) (iQ 1) &&
  reqb KI (imul (iQ 5) (imul cosB cosB)) (iQ 1) && reqb KI (imul sinB sinB) (imul (iQ 4) (imul cosB cosB)) &&   (* tan b_1 = 2 *)
  (let '(c5, s5) := cis 5 in reqb KI c5 (iQ (-1)) && reqb KI s5 (iQ 0)).    (* 5 * (pi/5) = pi *)

(* ---------------- Legendre polynomials ---------------- *)
(* the table of eval_ecp.P_l *)
Definition P_table (l : nat) (x : Q) : Q :=
  match l with
  | 0%nat => 1 | 1%nat => x | 2%nat => (1#2) * (3 * x * x - 1) | 3%nat => (1#2) * (5 * x * x * x - 3 * x)
  | 4%nat => (1#8) * (35 * x * x * x * x - 30 * x * x + 3) | _ => 0
  end%Q.
(* Bonnet recurrence (n+1) P_{n+1} = (2n+1) x P_n - n P_{n-1} *)
Fixpoint legendre2 (n : nat) (x : Q) : Q * Q :=      (* (P_n, P_{n-1}) *)
  match n with
  | O => (1, 0)
  | S m => let '(pm, pm1) := legendre2 m x in
           (((inject_Z (2 * Z.of_nat m + 1)) * x * pm - inject_Z (Z.of_nat m) * pm1) / inject_Z (Z.of_nat m + 1), pm)
  end%Q.
Definition legendre (n : nat) (x : Q) : Q := fst (legendre2 n x).

(* printing: coordinates of an element of KO / KI as 8 rationals (num, den) *)
Definition qz (q : Q) : list Z := let r := Qred q in [Qnum r; Zpos (Qden r)].
Definition show8 (e : (Q*Q*(Q*Q))*((Q*Q)*(Q*Q))) : list (list Z) :=
  let '(((a,b),(c,d)),((e1,f),(g,h))) := e in map qz [a;b;c;d;e1;f;g;h].
