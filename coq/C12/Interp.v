(* Interpretation of the computable rings into the real numbers: every element of a quadratic tower denotes a real
   number, the ring operations denote + and *, and reqb = true implies equality of the denoted reals.
   Hence an identity checked by computation in the ring is an identity between real numbers. *)
From Coq Require Import QArith Qreals Reals Lra List Bool.
From PyQMC Require Import base.ExactRing.
Import ListNotations.
Open Scope R_scope.

Record interp (K : ring) := {
  phi : T K -> R;
  phi_0 : phi (r0 K) = 0;
  phi_1 : phi (r1 K) = 1;
  phi_add : forall a b, phi (radd K a b) = phi a + phi b;
  phi_mul : forall a b, phi (rmul K a b) = phi a * phi b;
  phi_opp : forall a, phi (ropp K a) = - phi a;
  phi_eqb : forall a b, reqb K a b = true -> phi a = phi b }.
Arguments phi {K}. Arguments phi_0 {K}. Arguments phi_1 {K}. Arguments phi_add {K}. Arguments phi_mul {K}. Arguments phi_opp {K}. Arguments phi_eqb {K}.

Lemma Q2R_red q : Q2R (Qred q) = Q2R q.
Proof. apply Qeq_eqR. apply Qred_correct. Qed.

Definition Qinterp : interp Qring.
Proof.
  refine {| phi := (Q2R : T Qring -> R) |}.
  - cbn. unfold Q2R; cbn. lra.
  - cbn. unfold Q2R; cbn. lra.
  - intros a b. change (Q2R (Qred (a + b)%Q) = Q2R a + Q2R b). rewrite Q2R_red. apply Q2R_plus.
  - intros a b. change (Q2R (Qred (a * b)%Q) = Q2R a * Q2R b). rewrite Q2R_red. apply Q2R_mult.
  - intros a. change (Q2R (- a)%Q = - Q2R a). apply Q2R_opp.
  - intros a b H. change (Qeq_bool a b = true) in H. apply Qeq_eqR. apply Qeq_bool_iff. exact H.
Defined.

Definition quad_interp (K : ring) (I : interp K) (alpha : T K) (Hpos : 0 <= phi I alpha) : interp (quad K alpha).
Proof.
  refine {| phi := (fun x : T (quad K alpha) => phi I (fst x) + phi I (snd x) * sqrt (phi I alpha)) |}.
  - cbn. rewrite (phi_0 I). lra.
  - cbn. rewrite (phi_0 I), (phi_1 I). lra.
  - intros [a1 a2] [b1 b2]. cbn. rewrite !(phi_add I). lra.
  - intros [a1 a2] [b1 b2]. cbn. rewrite !(phi_add I), !(phi_mul I).
    pose proof (sqrt_sqrt _ Hpos) as S. set (r := sqrt (phi I alpha)) in *. set (A := phi I alpha) in *.
    replace (phi I a1 * phi I b1 + A * (phi I a2 * phi I b2) + (phi I a1 * phi I b2 + phi I a2 * phi I b1) * r)
      with (phi I a1 * phi I b1 + (r * r) * (phi I a2 * phi I b2) + (phi I a1 * phi I b2 + phi I a2 * phi I b1) * r) by (rewrite S; reflexivity).
    ring.
  - intros [a1 a2]. cbn. rewrite !(phi_opp I). lra.
  - intros [a1 a2] [b1 b2] H. cbn in *. apply andb_true_iff in H. destruct H as [H1 H2].
    rewrite (phi_eqb I _ _ H1), (phi_eqb I _ _ H2). reflexivity.
Defined.

Lemma phi_pow (K : ring) (I : interp K) x n : phi I (rpow K x n) = phi I x ^ n.
Proof. induction n as [|n IH]; cbn [rpow pow]; [apply (phi_1 I)|]. rewrite (phi_mul I), IH. reflexivity. Qed.
