From Coq Require Import QArith List Bool.
From PyQMC Require Import base.ExactRing C12.Model.
Lemma rule6_exact : exact_to KO oQ rule6 3 = true. Proof. vm_cast_no_check (eq_refl true). Qed.
Lemma rule6_sharp : exact_to KO oQ rule6 4 = false. Proof. vm_cast_no_check (eq_refl false). Qed.
Lemma rule18_exact : exact_to KO oQ rule18 5 = true. Proof. vm_cast_no_check (eq_refl true). Qed.
Lemma rule18_sharp : exact_to KO oQ rule18 6 = false. Proof. vm_cast_no_check (eq_refl false). Qed.
Lemma rule26_exact : exact_to KO oQ rule26 7 = true. Proof. vm_cast_no_check (eq_refl true). Qed.
Lemma rule26_sharp : exact_to KO oQ rule26 8 = false. Proof. vm_cast_no_check (eq_refl false). Qed.
Lemma octa_weights_and_norms :
  (reqb KO (weight_sum KO rule6) (oQ 1) && reqb KO (weight_sum KO rule18) (oQ 1) && reqb KO (weight_sum KO rule26) (oQ 1) && reqb KO (weight_sum KO rule50) (oQ 1)
   && on_sphere KO rule6 && on_sphere KO rule18 && on_sphere KO rule26 && on_sphere KO rule50
   && (length rule6 =? 6)%nat && (length rule18 =? 18)%nat && (length rule26 =? 26)%nat && (length rule50 =? 50)%nat) = true.
Proof. vm_cast_no_check (eq_refl true). Qed.
