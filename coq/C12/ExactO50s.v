From Coq Require Import QArith List Bool.
From PyQMC Require Import base.ExactRing C12.Model.
Lemma rule50_sharp : exact_to KO oQ rule50 12 = false. Proof. vm_cast_no_check (eq_refl false). Qed.
