From Coq Require Import QArith List Bool.
From PyQMC Require Import base.ExactRing C12.Model.
Lemma icosa_constants : constants_ok = true. Proof. vm_cast_no_check (eq_refl true). Qed.
Lemma rule12_exact : exact_to KI iQ rule12 5 = true. Proof. vm_cast_no_check (eq_refl true). Qed.
Lemma rule12_sharp : exact_to KI iQ rule12 6 = false. Proof. vm_cast_no_check (eq_refl false). Qed.
Lemma icosa_weights_and_norms :
  (reqb KI (weight_sum KI rule12) (iQ 1) && reqb KI (weight_sum KI rule32) (iQ 1) && on_sphere KI rule12 && on_sphere KI rule32
   && (length rule12 =? 12)%nat && (length rule32 =? 32)%nat) = true.
Proof. vm_cast_no_check (eq_refl true). Qed.
